package main

// Static sensitivity sweep (thorough tier): first-order syntactic variants of
// the functions a property is anchored in are generated in scratch copies of
// the repository (outside /repo and /verif), type-checked and classified by
// the very same rules - one checker process per variant, many in parallel.
// The sweep measures the checker (which edits it notices); it never changes a
// verdict on the tree itself. Nothing is executed: a variant is only loaded,
// type-checked and analysed.

import (
	"bytes"
	"encoding/json"
	"fmt"
	"go/ast"
	"go/format"
	"go/parser"
	"go/token"
	"math/rand"
	"os"
	"os/exec"
	"path/filepath"
	"sort"
	"strings"
	"sync"
)

type mutSite struct {
	File string
	Op   string
	N    int // ordinal of the site among sites of this operator in this file
	Desc string
	Func string
}

type sweepResult struct {
	Site    mutSite
	Outcome string // "not-compiling" | "flagged" | "survived" | "error"
	Rules   []string
}

// anchorFiles reads the property's anchor files from properties.jsonl.
func anchorFiles(vd, id string) []string {
	b, err := os.ReadFile(filepath.Join(vd, "properties.jsonl"))
	if err != nil {
		return nil
	}
	for _, l := range strings.Split(string(b), "\n") {
		if strings.TrimSpace(l) == "" {
			continue
		}
		var p struct {
			ID      string `json:"id"`
			Anchors struct {
				Files []string `json:"files"`
			} `json:"anchors"`
		}
		if json.Unmarshal([]byte(l), &p) == nil && p.ID == id {
			return p.Anchors.Files
		}
	}
	return nil
}

// mutate applies operator op at its n-th site in file f; when n < 0 it only enumerates sites.
func mutate(fset *token.FileSet, f *ast.File, op string, n int, rel string) (sites []mutSite, applied bool) {
	count := 0
	hit := func(desc, fn string) bool {
		sites = append(sites, mutSite{File: rel, Op: op, N: count, Desc: desc, Func: fn})
		is := count == n
		count++
		return is
	}
	for _, d := range f.Decls {
		fd, ok := d.(*ast.FuncDecl)
		if !ok || fd.Body == nil {
			continue
		}
		fname := fd.Name.Name
		if fd.Recv != nil && len(fd.Recv.List) > 0 {
			fname = recvName(fd.Recv.List[0].Type) + "." + fname
		}
		pos := func(p token.Pos) string { return fmt.Sprintf("%s:%d", rel, fset.Position(p).Line) }
		switch op {
		case "relop":
			ast.Inspect(fd.Body, func(nd ast.Node) bool {
				if be, ok := nd.(*ast.BinaryExpr); ok {
					var to token.Token
					switch be.Op {
					case token.LSS:
						to = token.LEQ
					case token.LEQ:
						to = token.LSS
					case token.GTR:
						to = token.GEQ
					case token.GEQ:
						to = token.GTR
					case token.EQL:
						to = token.NEQ
					case token.NEQ:
						to = token.EQL
					case token.LAND:
						to = token.LOR
					case token.LOR:
						to = token.LAND
					default:
						return true
					}
					if hit(fmt.Sprintf("%s: %s -> %s", pos(be.OpPos), be.Op, to), fname) {
						be.Op = to
						applied = true
					}
				}
				return true
			})
		case "negate":
			ast.Inspect(fd.Body, func(nd ast.Node) bool {
				if is, ok := nd.(*ast.IfStmt); ok {
					if hit(pos(is.If)+": negate if condition", fname) {
						is.Cond = &ast.UnaryExpr{Op: token.NOT, X: &ast.ParenExpr{X: is.Cond}}
						applied = true
					}
				}
				return true
			})
		case "const":
			ast.Inspect(fd.Body, func(nd ast.Node) bool {
				if bl, ok := nd.(*ast.BasicLit); ok && bl.Kind == token.INT {
					if hit(fmt.Sprintf("%s: %s -> %s+1", pos(bl.Pos()), bl.Value, bl.Value), fname) {
						bl.Value = "(" + bl.Value + "+1)"
						applied = true
					}
				}
				return true
			})
		case "swapargs":
			ast.Inspect(fd.Body, func(nd ast.Node) bool {
				if ce, ok := nd.(*ast.CallExpr); ok && len(ce.Args) >= 2 && !ce.Ellipsis.IsValid() {
					for i := 0; i+1 < len(ce.Args); i++ {
						if hit(fmt.Sprintf("%s: swap arguments %d,%d", pos(ce.Lparen), i+1, i+2), fname) {
							ce.Args[i], ce.Args[i+1] = ce.Args[i+1], ce.Args[i]
							applied = true
						}
					}
				}
				return true
			})
		// ---- behaviour-preserving operators (VERIF_SWEEP_OPS=flipif,swapcmp,demorgan,notnot,elsefall): every variant
		// is semantically identical to the original, so a *flagged* variant is a false alarm of the rules
		case "flipif":
			// if c { A } else { B }  ->  if !c { B } else { A }
			ast.Inspect(fd.Body, func(nd ast.Node) bool {
				if is, ok := nd.(*ast.IfStmt); ok && is.Else != nil {
					if eb, isBlock := is.Else.(*ast.BlockStmt); isBlock {
						if hit(pos(is.If)+": if/else flipped", fname) {
							is.Cond = &ast.UnaryExpr{Op: token.NOT, X: &ast.ParenExpr{X: is.Cond}}
							is.Body, is.Else = eb, is.Body
							applied = true
						}
					}
				}
				return true
			})
		case "swapcmp":
			// a == b -> b == a ; a < b -> b > a ; ...
			ast.Inspect(fd.Body, func(nd ast.Node) bool {
				if be, ok := nd.(*ast.BinaryExpr); ok {
					var to token.Token
					switch be.Op {
					case token.EQL, token.NEQ:
						to = be.Op
					case token.LSS:
						to = token.GTR
					case token.GTR:
						to = token.LSS
					case token.LEQ:
						to = token.GEQ
					case token.GEQ:
						to = token.LEQ
					default:
						return true
					}
					// operands without calls: evaluation order of side effects must not change
					pure := true
					ast.Inspect(be, func(x ast.Node) bool {
						switch x.(type) {
						case *ast.CallExpr, *ast.UnaryExpr:
							if u, isU := x.(*ast.UnaryExpr); !isU || u.Op == token.ARROW {
								pure = false
							}
						}
						return true
					})
					if !pure {
						return true
					}
					if hit(fmt.Sprintf("%s: operands of %s exchanged", pos(be.OpPos), be.Op), fname) {
						be.X, be.Y = be.Y, be.X
						be.Op = to
						applied = true
					}
				}
				return true
			})
		case "demorgan":
			// a && b -> !(!a || !b) ; a || b -> !(!a && !b)   (short-circuit order is kept)
			ast.Inspect(fd.Body, func(nd ast.Node) bool {
				is, ok := nd.(*ast.IfStmt)
				if !ok {
					return true
				}
				if be, isB := is.Cond.(*ast.BinaryExpr); isB && (be.Op == token.LAND || be.Op == token.LOR) {
					if hit(fmt.Sprintf("%s: De Morgan on %s", pos(be.OpPos), be.Op), fname) {
						op := token.LOR
						if be.Op == token.LOR {
							op = token.LAND
						}
						neg := func(e ast.Expr) ast.Expr { return &ast.UnaryExpr{Op: token.NOT, X: &ast.ParenExpr{X: e}} }
						is.Cond = neg(&ast.BinaryExpr{X: neg(be.X), Op: op, Y: neg(be.Y)})
						applied = true
					}
				}
				return true
			})
		case "notnot":
			ast.Inspect(fd.Body, func(nd ast.Node) bool {
				if is, ok := nd.(*ast.IfStmt); ok {
					if hit(pos(is.If)+": condition doubly negated", fname) {
						is.Cond = &ast.UnaryExpr{Op: token.NOT, X: &ast.ParenExpr{X: &ast.UnaryExpr{Op: token.NOT, X: &ast.ParenExpr{X: is.Cond}}}}
						applied = true
					}
				}
				return true
			})
		case "elsefall":
			// if c { A; return/continue/break } ; B   ->   if c { A; return } else { B }   (B = the rest of the block)
			ast.Inspect(fd.Body, func(nd ast.Node) bool {
				blk, ok := nd.(*ast.BlockStmt)
				if !ok {
					return true
				}
				for i, st := range blk.List {
					is, isIf := st.(*ast.IfStmt)
					if !isIf || is.Else != nil || len(is.Body.List) == 0 || i+1 >= len(blk.List) {
						continue
					}
					switch last := is.Body.List[len(is.Body.List)-1].(type) {
					case *ast.ReturnStmt:
					case *ast.BranchStmt:
						if last.Tok != token.CONTINUE && last.Tok != token.BREAK || last.Label != nil {
							continue
						}
					default:
						continue
					}
					// declarations in the rest would change scope only inside the new block: fine; labels are not moved
					hasLabel := false
					for _, r := range blk.List[i+1:] {
						if _, isL := r.(*ast.LabeledStmt); isL {
							hasLabel = true
						}
					}
					if hasLabel {
						continue
					}
					if hit(pos(is.If)+": rest of the block moved into else", fname) {
						rest := append([]ast.Stmt{}, blk.List[i+1:]...)
						is.Else = &ast.BlockStmt{List: rest}
						blk.List = blk.List[:i+1]
						applied = true
						return false
					}
				}
				return true
			})
		case "wrongvar":
			// an operand replaced by another variable of the function (parameters and locals, in order of first
			// appearance: the next and the previous one are tried; the type checker discards what does not fit)
			var names []string
			seen := map[string]bool{}
			addName := func(id *ast.Ident) {
				if id == nil || id.Name == "_" || seen[id.Name] || id.Obj == nil || id.Obj.Kind != ast.Var {
					return
				}
				seen[id.Name] = true
				names = append(names, id.Name)
			}
			if fd.Recv != nil {
				for _, f := range fd.Recv.List {
					for _, n := range f.Names {
						addName(n)
					}
				}
			}
			for _, f := range fd.Type.Params.List {
				for _, n := range f.Names {
					addName(n)
				}
			}
			ast.Inspect(fd.Body, func(nd ast.Node) bool {
				if id, ok := nd.(*ast.Ident); ok {
					addName(id)
				}
				return true
			})
			if len(names) < 2 {
				break
			}
			idx := map[string]int{}
			for i, n := range names {
				idx[n] = i
			}
			operand := func(e *ast.Expr) {
				id, ok := (*e).(*ast.Ident)
				if !ok || id.Obj == nil || id.Obj.Kind != ast.Var {
					return
				}
				i, known := idx[id.Name]
				if !known {
					return
				}
				for _, d := range []int{1, len(names) - 1} {
					alt := names[(i+d)%len(names)]
					if alt == id.Name {
						continue
					}
					if hit(fmt.Sprintf("%s: %s -> %s", pos(id.Pos()), id.Name, alt), fname) {
						*e = &ast.Ident{NamePos: id.NamePos, Name: alt}
						applied = true
					}
				}
			}
			ast.Inspect(fd.Body, func(nd ast.Node) bool {
				switch x := nd.(type) {
				case *ast.CallExpr:
					for i := range x.Args {
						operand(&x.Args[i])
					}
				case *ast.BinaryExpr:
					operand(&x.X)
					operand(&x.Y)
				case *ast.SendStmt:
					operand(&x.Chan)
					operand(&x.Value)
				case *ast.IndexExpr:
					operand(&x.Index)
				case *ast.ReturnStmt:
					for i := range x.Results {
						operand(&x.Results[i])
					}
				case *ast.KeyValueExpr:
					operand(&x.Value)
				case *ast.UnaryExpr:
					operand(&x.X)
				}
				return true
			})
		case "boollit":
			ast.Inspect(fd.Body, func(nd ast.Node) bool {
				if id, ok := nd.(*ast.Ident); ok && (id.Name == "true" || id.Name == "false") {
					to := "true"
					if id.Name == "true" {
						to = "false"
					}
					if hit(fmt.Sprintf("%s: %s -> %s", pos(id.Pos()), id.Name, to), fname) {
						id.Name = to
						applied = true
					}
				}
				return true
			})
		case "branchstmt":
			// continue <-> break, continue / break -> return (in functions without results)
			noResults := fd.Type.Results == nil || len(fd.Type.Results.List) == 0
			ast.Inspect(fd.Body, func(nd ast.Node) bool {
				var list *[]ast.Stmt
				switch b := nd.(type) {
				case *ast.BlockStmt:
					list = &b.List
				case *ast.CaseClause:
					list = &b.Body
				case *ast.CommClause:
					list = &b.Body
				}
				if list == nil {
					return true
				}
				for i, st := range *list {
					bs, ok := st.(*ast.BranchStmt)
					if !ok || bs.Label != nil || (bs.Tok != token.CONTINUE && bs.Tok != token.BREAK) {
						continue
					}
					to := token.BREAK
					if bs.Tok == token.BREAK {
						to = token.CONTINUE
					}
					if hit(fmt.Sprintf("%s: %s -> %s", pos(bs.Pos()), bs.Tok, to), fname) {
						bs.Tok = to
						applied = true
					}
					if noResults {
						if hit(fmt.Sprintf("%s: %s -> return", pos(bs.Pos()), bs.Tok), fname) {
							(*list)[i] = &ast.ReturnStmt{Return: bs.Pos()}
							applied = true
						}
					}
				}
				return true
			})
		case "delcase":
			ast.Inspect(fd.Body, func(nd ast.Node) bool {
				var body *ast.BlockStmt
				switch b := nd.(type) {
				case *ast.SelectStmt:
					body = b.Body
				case *ast.SwitchStmt:
					body = b.Body
				case *ast.TypeSwitchStmt:
					body = b.Body
				}
				if body == nil || len(body.List) < 2 {
					return true
				}
				for i, cl := range body.List {
					if hit(pos(cl.Pos())+": delete case", fname) {
						nl := append([]ast.Stmt{}, body.List[:i]...)
						nl = append(nl, body.List[i+1:]...)
						body.List = nl
						applied = true
						return false
					}
				}
				return true
			})
		case "dupstmt":
			// a statement executed twice (a send, a call, an increment)
			ast.Inspect(fd.Body, func(nd ast.Node) bool {
				var list *[]ast.Stmt
				switch b := nd.(type) {
				case *ast.BlockStmt:
					list = &b.List
				case *ast.CaseClause:
					list = &b.Body
				case *ast.CommClause:
					list = &b.Body
				}
				if list == nil {
					return true
				}
				for i, st := range *list {
					switch st.(type) {
					case *ast.ExprStmt, *ast.SendStmt, *ast.IncDecStmt:
					default:
						continue
					}
					if hit(pos(st.Pos())+": duplicate statement", fname) {
						nl := append([]ast.Stmt{}, (*list)[:i+1]...)
						nl = append(nl, st)
						nl = append(nl, (*list)[i+1:]...)
						*list = nl
						applied = true
						return false
					}
				}
				return true
			})
		case "delstmt", "swapstmt":
			ast.Inspect(fd.Body, func(nd ast.Node) bool {
				var list *[]ast.Stmt
				switch b := nd.(type) {
				case *ast.BlockStmt:
					list = &b.List
				case *ast.CaseClause:
					list = &b.Body
				case *ast.CommClause:
					list = &b.Body
				}
				if list == nil {
					return true
				}
				if op == "delstmt" {
					for i, s := range *list {
						switch s.(type) {
						case *ast.ExprStmt, *ast.AssignStmt, *ast.SendStmt, *ast.IncDecStmt, *ast.DeferStmt, *ast.GoStmt, *ast.IfStmt, *ast.ReturnStmt:
						default:
							continue
						}
						if _, isRet := s.(*ast.ReturnStmt); isRet && i == len(*list)-1 && nd == ast.Node(fd.Body) {
							continue // final return: deletion never compiles for value-returning functions
						}
						if hit(pos(s.Pos())+": delete statement", fname) {
							nl := append([]ast.Stmt{}, (*list)[:i]...)
							nl = append(nl, (*list)[i+1:]...)
							*list = nl
							applied = true
							return false
						}
					}
				} else {
					for i := 0; i+1 < len(*list); i++ {
						if _, isDecl := (*list)[i].(*ast.DeclStmt); isDecl {
							continue
						}
						if hit(pos((*list)[i].Pos())+": swap with next statement", fname) {
							(*list)[i], (*list)[i+1] = (*list)[i+1], (*list)[i]
							applied = true
							return false
						}
					}
				}
				return true
			})
		}
	}
	return
}

func recvName(e ast.Expr) string {
	switch x := e.(type) {
	case *ast.StarExpr:
		return recvName(x.X)
	case *ast.IndexExpr:
		return recvName(x.X)
	case *ast.IndexListExpr:
		return recvName(x.X)
	case *ast.Ident:
		return x.Name
	}
	return ""
}

var sweepOps = []string{"relop", "negate", "const", "swapargs", "delstmt", "swapstmt", "boollit", "branchstmt", "delcase", "dupstmt", "wrongvar"}

func sweep(id, vd string, limit int, relevant map[string]bool) map[string]any {
	repo := repoDir()
	files := anchorFiles(vd, id)
	var sites []mutSite
	for _, rel := range files {
		src, err := os.ReadFile(filepath.Join(repo, rel))
		if err != nil {
			continue
		}
		ops := sweepOps
		if e := os.Getenv("VERIF_SWEEP_OPS"); e != "" {
			ops = strings.Split(e, ",") // audit runs: one operator at a time
		}
		for _, op := range ops {
			fset := token.NewFileSet()
			f, err := parser.ParseFile(fset, rel, src, parser.ParseComments)
			if err != nil {
				continue
			}
			s, _ := mutate(fset, f, op, -1, rel)
			for _, x := range s {
				if relevant == nil || relevant[x.Func] {
					sites = append(sites, x)
				}
			}
		}
	}
	total := len(sites)
	seed := int64(1)
	fmt.Sscan(os.Getenv("VERIF_SEED"), &seed)
	if limit > 0 && len(sites) > limit {
		r := rand.New(rand.NewSource(seed))
		r.Shuffle(len(sites), func(i, j int) { sites[i], sites[j] = sites[j], sites[i] })
		sites = sites[:limit]
		sort.Slice(sites, func(i, j int) bool {
			if sites[i].File != sites[j].File {
				return sites[i].File < sites[j].File
			}
			if sites[i].Op != sites[j].Op {
				return sites[i].Op < sites[j].Op
			}
			return sites[i].N < sites[j].N
		})
	}
	workers := 12
	tmpRoot, err := os.MkdirTemp("", "golemsweep-")
	if err != nil {
		return map[string]any{"error": err.Error()}
	}
	defer os.RemoveAll(tmpRoot)
	exe, _ := os.Executable()
	jobs := make(chan mutSite)
	results := make(chan sweepResult, len(sites))
	var wg sync.WaitGroup
	for w := 0; w < workers; w++ {
		wg.Add(1)
		go func(w int) {
			defer wg.Done()
			dir := filepath.Join(tmpRoot, fmt.Sprintf("w%d", w))
			out := filepath.Join(tmpRoot, fmt.Sprintf("o%d", w))
			os.MkdirAll(out, 0o755)
			if err := exec.Command("rsync", "-a", "--exclude", ".git", repo+"/", dir+"/").Run(); err != nil {
				for s := range jobs {
					results <- sweepResult{Site: s, Outcome: "error"}
				}
				return
			}
			for s := range jobs {
				orig, _ := os.ReadFile(filepath.Join(repo, s.File))
				fset := token.NewFileSet()
				f, err := parser.ParseFile(fset, s.File, orig, parser.ParseComments)
				if err != nil {
					results <- sweepResult{Site: s, Outcome: "error"}
					continue
				}
				_, ok := mutate(fset, f, s.Op, s.N, s.File)
				var buf bytes.Buffer
				if !ok || format.Node(&buf, fset, f) != nil {
					results <- sweepResult{Site: s, Outcome: "error"}
					continue
				}
				os.WriteFile(filepath.Join(dir, s.File), buf.Bytes(), 0o644)
				cmd := exec.Command(exe, "check", id, "--tier", "quick")
				cmd.Env = append(os.Environ(), "VERIF_REPO="+dir, "VERIF_OUT="+out, "VERIF_NO_SWEEP=1")
				o, _ := cmd.CombinedOutput()
				os.WriteFile(filepath.Join(dir, s.File), orig, 0o644)
				res := sweepResult{Site: s}
				txt := string(o)
				switch {
				case strings.Contains(txt, "rule=loader"):
					res.Outcome = "not-compiling"
				case strings.Contains(txt, "VIOLATION property="):
					res.Outcome = "flagged"
					seen := map[string]bool{}
					for _, l := range strings.Split(txt, "\n") {
						if i := strings.Index(l, " rule="); i >= 0 && strings.HasPrefix(l, "VIOLATION") {
							r := strings.Fields(l[i+6:])[0]
							if !seen[r] {
								seen[r] = true
								res.Rules = append(res.Rules, r)
							}
						}
					}
				default:
					res.Outcome = "survived"
				}
				results <- res
			}
		}(w)
	}
	for _, s := range sites {
		jobs <- s
	}
	close(jobs)
	wg.Wait()
	close(results)
	counts := map[string]int{}
	perOp := map[string]map[string]int{}
	var survivors []string
	var sample []string
	for r := range results {
		counts[r.Outcome]++
		if perOp[r.Site.Op] == nil {
			perOp[r.Site.Op] = map[string]int{}
		}
		perOp[r.Site.Op][r.Outcome]++
		if r.Outcome == "survived" {
			survivors = append(survivors, fmt.Sprintf("%s [%s in %s]", r.Site.Desc, r.Site.Op, r.Site.Func))
		}
		if r.Outcome == "flagged" && (len(sample) < 12 || os.Getenv("VERIF_SWEEP_OPS") != "") {
			sample = append(sample, fmt.Sprintf("%s [%s in %s] -> %s", r.Site.Desc, r.Site.Op, r.Site.Func, strings.Join(r.Rules, ",")))
		}
	}
	sort.Strings(survivors)
	sort.Strings(sample)
	compiling := counts["flagged"] + counts["survived"]
	return map[string]any{
		"files":           files,
		"sites_total":     total,
		"variants":        len(sites),
		"not_compiling":   counts["not-compiling"],
		"compiling":       compiling,
		"flagged":         counts["flagged"],
		"survived":        counts["survived"],
		"errors":          counts["error"],
		"per_operator":    perOp,
		"flagged_samples": sample,
		"surviving":       survivors,
		"note":            "first-order syntactic variants (relational/logical operator neighbours, negated if, integer literal +1, swapped adjacent arguments, deleted statement, swapped adjacent statements, flipped boolean literal, break/continue/return exchanged, deleted case, duplicated statement, an operand replaced by a neighbouring variable) of the functions in the property's anchor files; a surviving variant is either behaviour-preserving / irrelevant to this property or a blind spot of the rules; the sweep never changes the verdict",
	}
}
