package main

import (
	"runtime/debug"
	"encoding/json"
	"fmt"
	"os"
	"path/filepath"
	"strings"
	"time"

	"golang.org/x/tools/go/ssa"

	"verif/checker/internal/core"
	"verif/checker/internal/ir"
	"verif/checker/internal/load"
	"verif/checker/internal/rules"
)

func verifDir() string {
	if d := os.Getenv("VERIF_DIR"); d != "" {
		return d
	}
	exe, err := os.Executable()
	if err == nil {
		d := filepath.Dir(filepath.Dir(exe))
		if _, err := os.Stat(filepath.Join(d, "MANIFEST.json")); err == nil {
			return d
		}
	}
	return "/verif"
}

func main() {
	if len(os.Args) < 2 {
		usage()
	}
	switch os.Args[1] {
	case "dump":
		dump(os.Args[2:])
	case "check":
		os.Exit(check(os.Args[2:]))
	case "replay":
		if len(os.Args) < 3 {
			usage()
		}
		b, err := os.ReadFile(os.Args[2])
		if err != nil {
			fmt.Println(err)
			os.Exit(2)
		}
		fmt.Println(string(b))
	case "sweep":
		if len(os.Args) < 3 {
			usage()
		}
		r := sweep(os.Args[2], verifDir(), 0, nil)
		b, _ := json.MarshalIndent(r, "", " ")
		fmt.Println(string(b))
	case "list":
		fmt.Println(strings.Join(rules.IDs(), " "))
	default:
		usage()
	}
}

func usage() {
	fmt.Println("usage: golemcheck check <ID>|all [--tier quick|thorough] | replay <file> | dump <pkg> <func|Type.Method> | list")
	os.Exit(2)
}

func check(args []string) (code int) {
	tStart := time.Now()
	tier := os.Getenv("VERIF_TIER")
	if tier == "" {
		tier = "quick"
	}
	var ids []string
	for i := 0; i < len(args); i++ {
		switch {
		case args[i] == "--tier" && i+1 < len(args):
			tier = args[i+1]
			i++
		case args[i] == "all":
			ids = append(ids, rules.IDs()...)
		default:
			ids = append(ids, args[i])
		}
	}
	if tier != "quick" && tier != "thorough" {
		tier = "quick"
	}
	vd := verifDir()
	known, err := core.LoadKnown(filepath.Join(vd, "known_findings.json"))
	if err != nil {
		fmt.Println("ERROR", err)
		return 2
	}
	archs := []string{""}
	if tier == "thorough" {
		archs = []string{"", "386", "arm64"}
	}
	worlds := map[string]*load.World{}
	defer func() {
		for _, w := range worlds {
			w.Close()
		}
	}()
	failRule := "loader"
	failProp := func(id, msg string) {
		od := vd
		if o := os.Getenv("VERIF_OUT"); o != "" {
			od = o
		}
		p := filepath.Join(od, "evidence", "violations", id+"-0.json")
		os.MkdirAll(filepath.Dir(p), 0o755)
		os.WriteFile(p, []byte(fmt.Sprintf("{\"property\":%q,\"status\":\"undecided\",\"detail\":%q}\n", id, msg)), 0o644)
		fmt.Println(msg)
		fmt.Printf("VIOLATION property=%s replay=%s kind=undecided rule=%s\n", id, p, failRule)
	}
	for _, a := range archs {
		w, err := load.Load(load.RepoDir(), a)
		if err == nil {
			err = w.CheckComplete()
		}
		if err != nil {
			for _, id := range ids {
				failProp(id, fmt.Sprintf("cannot load/type-check the repository (GOARCH=%q): %v", a, err))
			}
			return 1
		}
		worlds[a] = w
	}
	loadDur := time.Since(tStart)
	for _, id := range ids {
		pack := rules.Packs[id]
		if pack == nil {
			fmt.Printf("no check for %s\n", id)
			code = 2
			continue
		}
		t0 := time.Now().Add(-loadDur)
		var ctxs []*core.Ctx
		var skipped []string
		panicked := false
		for _, a := range archs {
			skip := ""
			for _, need := range rules.Needs[id] {
				if why, dropped := worlds[a].Dropped[need]; dropped {
					skip = fmt.Sprintf("configuration linux/%s skipped: package %s does not type-check there (%s)", a, need, why)
				}
			}
			if skip != "" {
				skipped = append(skipped, skip)
				continue
			}
			c := core.NewCtx(worlds[a], id, tier)
			func() {
				defer func() {
					if r := recover(); r != nil {
						panicked = true
						failRule = "checker-panic"
						if os.Getenv("VERIF_PANIC") != "" {
							fmt.Println(string(debug.Stack()))
						}
						failProp(id, fmt.Sprintf("checker panic in %s: %v", id, r))
						failRule = "loader"
					}
				}()
				pack.Run(c)
			}()
			ctxs = append(ctxs, c)
		}
		if panicked {
			code = 1
			continue
		}
		extra := map[string]any{}
		if len(skipped) > 0 {
			extra["configs_skipped"] = skipped
		}
		if tier == "thorough" {
			fs := map[string]bool{}
			for _, cx := range ctxs {
				for f := range cx.Funcs {
					fs[f] = true
				}
			}
			thorough(id, vd, extra, fs)
		}
		out := vd
		if o := os.Getenv("VERIF_OUT"); o != "" {
			out = o
		}
		res := core.Finish(out, ctxs, pack.Meta, known, t0, extra)
		if res.ExitCode != 0 {
			code = 1
		}
	}
	return code
}

func dump(args []string) {
	w, err := load.Load(load.RepoDir(), os.Getenv("VERIF_GOARCH"))
	if err != nil {
		fmt.Println("ERR", err)
		os.Exit(2)
	}
	defer w.Close()
	var fn *ssa.Function
	if i := strings.Index(args[1], "."); i > 0 {
		fn = w.Method(args[0], args[1][:i], args[1][i+1:])
	} else {
		fn = w.Func(args[0], args[1])
	}
	if fn == nil {
		fmt.Println("not found")
		os.Exit(2)
	}
	opt := core.NewCtx(w, "dump", "quick").Options()
	if os.Getenv("VERIF_DUMP_LOOPS") != "" {
		o := *opt
		o.LoopInline = true
		opt = &o
	}
	var rec func(fn *ssa.Function, st *ir.State, ind string)
	rec = func(fn *ssa.Function, st *ir.State, ind string) {
		an := ir.Analyze(fn, st, opt)
		fmt.Printf("%s== %s: headers=%d paths=%d problems=%v\n", ind, ir.FuncName(fn), len(an.Headers), an.NPaths, an.Problems)
		seen := map[ssa.Instruction]bool{}
		for _, p := range an.AllPaths() {
			fmt.Print(ind + strings.ReplaceAll(p.String(), "\n", "\n"+ind))
			for ph, v := range p.PhiOut {
				fmt.Printf("    phi %s := %v\n%s", ph.Name(), v, ind)
			}
			fmt.Println()
			for _, s := range p.Events(ir.KGo) {
				if seen[s.Instr] {
					continue
				}
				seen[s.Instr] = true
				sfn, sst := ir.SpawnState(s)
				if sfn != nil {
					rec(sfn, sst, ind+"  | ")
				}
			}
		}
	}
	rec(fn, ir.NewRootState(fn, nil, nil, nil), "")
}
