package main

import (
	"fmt"
	"os"
	"time"

	"verif/checker/internal/load"
)

func main() {
	t0 := time.Now()
	w, err := load.Load(load.RepoDir(), os.Getenv("VERIF_GOARCH"))
	if err != nil {
		fmt.Println("ERR", err)
		os.Exit(2)
	}
	defer w.Close()
	fmt.Println(w.AllLogical(), time.Since(t0))
	for _, p := range w.AllLogical() {
		fmt.Println(p, len(w.SourceFuncs(p)))
	}
	fmt.Println(w.CheckComplete())
}
