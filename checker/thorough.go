package main

// thorough adds the tier-specific extras to the evidence (filled in later:
// sensitivity sweep, selftest). The verdict is computed by the rule packs on
// all build configurations.
func thorough(id, verifDir string, extra map[string]any) {}
