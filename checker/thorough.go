package main

import (
	"os"
	"strings"

	"verif/checker/internal/load"
)

func repoDir() string { return load.RepoDir() }

// thorough adds the tier-specific extras to the evidence: the static sensitivity sweep.
// The verdict itself is computed by the rule packs on all build configurations (see check()).
func thorough(id, verifDir string, extra map[string]any, funcs map[string]bool) {
	if os.Getenv("VERIF_NO_SWEEP") != "" {
		return
	}
	limit := 240
	extra["sensitivity_sweep"] = sweep(id, verifDir, limit, relevantFuncs(funcs))
}

// relevantFuncs turns the analysed-function keys of a run ("pkg.Func|...", "(*pkg.T[A]).M|...", "pkg.F$1|...")
// into declaration names ("Func", "T.M") so that the sweep mutates only what the property's rules look at.
func relevantFuncs(funcs map[string]bool) map[string]bool {
	out := map[string]bool{}
	for k := range funcs {
		if i := strings.Index(k, "|"); i >= 0 {
			k = k[:i]
		}
		if i := strings.Index(k, "$"); i >= 0 {
			k = k[:i]
		}
		name := k
		recv := ""
		if strings.HasPrefix(k, "(") {
			if j := strings.LastIndex(k, ")."); j > 0 {
				recv = k[1:j]
				name = k[j+2:]
				recv = strings.TrimPrefix(recv, "*")
				if b := strings.Index(recv, "["); b >= 0 {
					recv = recv[:b]
				}
				if d := strings.LastIndex(recv, "."); d >= 0 {
					recv = recv[d+1:]
				}
			}
		} else if d := strings.LastIndex(k, "."); d >= 0 {
			name = k[d+1:]
		}
		if recv != "" {
			out[recv+"."+name] = true
		} else {
			out[name] = true
		}
	}
	return out
}
